//! C03: every saved file is structurally valid for a strict independent reader, which recovers the saved objects.
use crate::common::*;
use crate::gen::*;
use crate::strict;
use lopdf::encryption::crypt_filters::{Aes128CryptFilter, Aes256CryptFilter, CryptFilter, Rc4CryptFilter};
use lopdf::xref::XrefType;
use lopdf::{Dictionary, Document, EncryptionState, EncryptionVersion, IncrementalDocument, Object, Permissions, Stream};
use rayon::prelude::*;
use serde_json::{json, Value};
use std::collections::BTreeMap;
use std::sync::Arc;

pub fn check_doc(spec: &DocSpec) -> Result<bool, (String, String)> {
    let mut d = build(spec);
    let mut out = vec![];
    let r = guarded(std::panic::AssertUnwindSafe(|| d.save_to(&mut out)));
    match r {
        Err(p) => return Err(("save-no-panic".into(), format!("save panicked: {}", p))),
        Ok(Err(e)) => return Err(("save-ok".into(), format!("save to a Vec failed: {}", e))),
        Ok(Ok(())) => {}
    }
    verify_file(&out, 0, &build(spec), spec.xref_stream, 1).map_err(|e| ("strict-reader".to_string(), e))?;
    // the same document through a sink that accepts at most 7 bytes per call (a pipe, a socket): the statement is about
    // the file that reaches the sink, whatever the sink's write granularity, so the strict reader must accept that file too
    let mut d2 = build(spec);
    let mut sink = crate::sinks::Sink::new(crate::sinks::Mode::Chunk(7));
    match guarded(std::panic::AssertUnwindSafe(|| d2.save_to(&mut sink))) {
        Err(p) => return Err(("save-no-panic".into(), format!("save to a short-writing sink panicked: {}", p))),
        Ok(Err(e)) => return Err(("save-ok".into(), format!("save to a short-writing sink failed: {}", e))),
        Ok(Ok(())) => {}
    }
    verify_file(&sink.delivered, 0, &build(spec), spec.xref_stream, 1).map_err(|e| ("strict-reader-short-writes".to_string(), format!("file delivered to a sink taking 7 bytes per call: {}", e)))?;
    Ok(!spec.objects.is_empty())
}

/// strict reading of the revision starting at `start` must give back exactly the objects of `orig` (minus bookkeeping objects);
/// `sections`: the number of cross-reference sections a reader that starts at startxref and follows Prev must pass through
/// (1 for a plain save, the number of revisions of the base + 1 for an incremental save)
pub fn verify_file(file: &[u8], start: usize, orig: &Document, want_stream: bool, sections: usize) -> Result<(), String> {
    let rec = strict::read_revision(file, start)?;
    let found = follow_chain(file, start, &rec.trailer)?;
    if found != sections { return Err(format!("startxref and the Prev entries lead through {} cross-reference section(s), the file was written as {} revision(s)", found, sections)); }
    if rec.xref_is_stream != want_stream { return Err("wrong cross-reference format".into()); }
    if rec.version != orig.version { return Err(format!("version {:?} != {:?}", rec.version, orig.version)); }
    let expected: Vec<(&(u32, u16), &Object)> = orig.objects.iter().filter(|(_, o)| !is_bookkeeping_object(o)).collect();
    if expected.len() != rec.objects.len() { return Err(format!("strict reader recovered {} objects, {} were saved", rec.objects.len(), expected.len())); }
    for (id, o) in expected {
        match rec.objects.get(id) {
            None => return Err(format!("object {} {} not recovered", id.0, id.1)),
            Some(r) => {
                let same = match (o, r) {
                    (Object::Stream(a), Object::Stream(b)) => a.content == b.content && dict_eq(&a.dict, &b.dict, &[]),
                    _ => obj_eq(o, r),
                };
                if !same { return Err(format!("object {} {}: saved {:?}, strict reader recovered {:?}", id.0, id.1, o, r)); }
            }
        }
    }
    if !dict_eq(&orig.trailer, &rec.trailer, BOOKKEEPING) { return Err(format!("trailer differs: {:?} vs {:?}", orig.trailer, rec.trailer)); }
    let size = rec.trailer.get(b"Size").and_then(|o| o.as_i64()).unwrap_or(-1);
    if size <= orig.max_id as i64 { return Err(format!("Size {} does not exceed max_id {}", size, orig.max_id)); }
    if let Some(((n, g), _)) = orig.objects.iter().filter(|(_, o)| !is_bookkeeping_object(o)).next_back() {
        if size <= *n as i64 { return Err(format!("Size {} does not exceed the number of the saved object {} {}", size, n, g)); }
    }
    Ok(())
}

// ---------------------------------------------------------------------------------------------------------------------
// The chain of cross-reference sections (ISO 32000-1 7.5.5, 7.5.6, 7.5.8.4).
//
// A strict reader starts at the offset after startxref and, as long as the trailer dictionary (or cross-reference stream
// dictionary) it finds there has a Prev entry, goes on to the offset Prev gives, where it must again find a cross-reference
// section; an XRefStm entry must likewise lead to a cross-reference stream.  `strict::read_revision` reads the newest
// section and accounts for every byte of the newest revision; what is checked here is that the entries that lead OUT of
// that section lead to cross-reference sections of the earlier revisions, the first of them to the very section the
// previous file's startxref names, and that the chain ends.  A plain save has no earlier revision, so its trailer cannot
// have a Prev at all.  Written from the standard; shares nothing with lopdf's reader but `strict::P`, the tokenizer of
// the strict reader.
// ---------------------------------------------------------------------------------------------------------------------

fn eol(p: &mut strict::P) -> Result<(), String> {
    match (p.peek(), p.b.get(p.i + 1)) {
        (Some(b'\r'), Some(b'\n')) => { p.i += 2; Ok(()) }
        (Some(b'\n'), _) | (Some(b'\r'), _) => { p.i += 1; Ok(()) }
        _ => Err(format!("end of line expected at offset {}", p.i)),
    }
}

/// the dictionary of the cross-reference section that starts exactly at `pos` (trailer dictionary of a table, or the
/// dictionary of a cross-reference stream) and whether it is a stream
pub fn section_at(file: &[u8], pos: usize) -> Result<(Dictionary, bool), String> {
    let rest = file.get(pos..).ok_or("the offset lies beyond the end of the file")?;
    let mut p = strict::P::new(file, pos);
    if rest.starts_with(b"xref") && matches!(rest.get(4), Some(b'\n') | Some(b'\r')) {
        p.i += 4;
        eol(&mut p)?;
        loop {
            if file[p.i..].starts_with(b"trailer") { p.i += 7; break; }
            p.uint()?;
            p.eat(b" ")?;
            let count = p.uint()?;
            if p.peek() == Some(b' ') { p.i += 1; }
            eol(&mut p)?;
            for _ in 0..count {
                let e = file.get(p.i..p.i + 20).ok_or("truncated cross-reference entry")?;
                let ok = e[..10].iter().all(|c| c.is_ascii_digit()) && e[10] == b' ' && e[11..16].iter().all(|c| c.is_ascii_digit()) && e[16] == b' '
                    && (e[17] == b'n' || e[17] == b'f') && matches!(&e[18..], b" \n" | b" \r" | b"\r\n");
                if !ok { return Err(format!("the entry at offset {} is not a well-formed 20-byte entry", p.i)); }
                p.i += 20;
            }
        }
        p.skip_ws();
        match p.object(0)? { Object::Dictionary(d) => Ok((d, false)), _ => Err("the keyword trailer is not followed by a dictionary".into()) }
    } else {
        p.uint().map_err(|_| "neither the keyword xref nor an object header".to_string())?;
        p.eat(b" ")?;
        p.uint()?;
        p.eat(b" obj")?;
        p.skip_ws();
        let d = match p.object(0)? { Object::Dictionary(d) => d, _ => return Err("the object is not a stream".into()) };
        p.skip_ws();
        p.eat(b"stream").map_err(|_| "the object is not a stream".to_string())?;
        if d.get(b"Type").and_then(|o| o.as_name()).ok() != Some(b"XRef".as_slice()) { return Err("the stream is not of Type XRef".into()); }
        Ok((d, true))
    }
}

/// the number after the last `startxref` keyword of `file` (which must end `startxref EOL digits EOL %%EOF` and optional white space)
fn startxref_of(file: &[u8]) -> Result<usize, String> {
    let mut end = file.len();
    while end > 0 && matches!(file[end - 1], b'\n' | b'\r' | b' ') { end -= 1; }
    if !file[..end].ends_with(b"%%EOF") { return Err("the bytes do not end with %%EOF".into()); }
    end -= 5;
    while end > 0 && matches!(file[end - 1], b'\n' | b'\r') { end -= 1; }
    let mut ds = end;
    while ds > 0 && file[ds - 1].is_ascii_digit() { ds -= 1; }
    if ds == end { return Err("no offset before %%EOF".into()); }
    let mut k = ds;
    while k > 0 && matches!(file[k - 1], b'\n' | b'\r') { k -= 1; }
    if k == ds || !file[..k].ends_with(b"startxref") { return Err("no startxref keyword before the offset".into()); }
    std::str::from_utf8(&file[ds..end]).unwrap().parse().map_err(|e| format!("startxref: {}", e))
}

fn found_at(file: &[u8], pos: usize) -> String {
    match file.get(pos..) { Some(r) => format!("{:?}", String::from_utf8_lossy(&r[..r.len().min(24)])), None => "nothing".into() }
}

/// From the newest cross-reference section (dictionary `newest`, belonging to the revision that starts at `rev_start` and ends
/// with the file) follow Prev until a section has none; the number of sections passed through, the newest included.
pub fn follow_chain(file: &[u8], rev_start: usize, newest: &Dictionary) -> Result<usize, String> {
    let offset_of = |d: &Dictionary, key: &[u8]| -> Result<Option<usize>, String> {
        match d.get(key) {
            Err(_) => Ok(None),
            Ok(Object::Integer(n)) if *n >= 0 => Ok(Some(*n as usize)),
            Ok(o) => Err(format!("{} is {:?}, not a direct non-negative integer", String::from_utf8_lossy(key), o)),
        }
    };
    let mut at = startxref_of(file)?;
    let mut dict = newest.clone();
    let mut sections = 1;
    loop {
        let whose = if sections == 1 { "the trailer of the saved revision".to_string() } else { format!("section {} of the chain (offset {})", sections, at) };
        if let Some(x) = offset_of(&dict, b"XRefStm")? {
            match section_at(file, x) {
                Ok((_, true)) if x < at && (sections > 1 || x < rev_start) => {}
                Ok((_, true)) => return Err(format!("{} has XRefStm {}, which does not lie in an earlier part of the file", whose, x)),
                Ok((_, false)) => return Err(format!("{} has XRefStm {}, where a cross-reference table stands, not a stream", whose, x)),
                Err(e) => return Err(format!("{} has XRefStm {}, but there is no cross-reference stream at offset {} ({}; found {})", whose, x, x, e, found_at(file, x))),
            }
        }
        let prev = match offset_of(&dict, b"Prev")? { None => return Ok(sections), Some(p) => p };
        let (d, _) = section_at(file, prev).map_err(|e| format!("{} has Prev {}, but there is no cross-reference section at offset {} ({}; found {}){}",
            whose, prev, prev, e, found_at(file, prev), if rev_start == 0 && sections == 1 { "; a plain save is one revision and has nothing for Prev to point to" } else { "" }))?;
        if sections == 1 {
            if prev >= rev_start { return Err(format!("{} has Prev {}, which lies inside the revision itself (it starts at {})", whose, prev, rev_start)); }
            let want = startxref_of(&file[..rev_start]).map_err(|e| format!("the previous revisions: {}", e))?;
            if prev != want { return Err(format!("{} has Prev {} but the startxref of the previous file is {}", whose, prev, want)); }
        }
        if prev >= at { return Err(format!("{} has Prev {}, which does not lie before it: the chain does not end", whose, prev)); }
        if sections >= 64 { return Err("more than 64 sections".into()); }
        at = prev;
        dict = d;
        sections += 1;
    }
}

/// why an incremental update of a file did not give the next file
pub enum UpErr { Refused(String), Broken(String, String) }

impl From<String> for UpErr { fn from(s: String) -> UpErr { UpErr::Refused(s) } }

/// One incremental update of the file `prev_bytes`, which has `revisions` revisions and gave `prev` when it was loaded: the update rewrites
/// the lowest-numbered object unchanged and adds one new stream, and is saved on top of the bytes.  The result is itself a
/// file "produced by saving a document", so it is read strictly before it is handed on: the previous bytes are a prefix,
/// the appended revision holds exactly the update, and startxref / Prev lead through revisions + 1 sections.
pub fn update_once(prev_bytes: &[u8], prev: Document, revisions: usize, want_stream: bool) -> Result<Vec<u8>, UpErr> {
    let rewritten = prev.objects.iter().find(|(_, o)| !is_bookkeeping_object(o)).map(|(id, o)| (*id, o.clone()));
    let mut inc = IncrementalDocument::create_from(prev_bytes.to_vec(), prev);
    if let Some((id, o)) = rewritten {
        inc.new_document.objects.insert(id, o);
        inc.new_document.max_id = inc.new_document.max_id.max(id.0);
    }
    inc.new_document.add_object(Stream::new(Dictionary::new(), format!("% revision {} of this file\n", revisions + 1).into_bytes()));
    let expect = inc.new_document.clone();
    let mut out = vec![];
    match quiet(|| inc.save_to(&mut out)) {
        Err(p) => return Err(UpErr::Broken("save-no-panic".into(), format!("incremental save on a file of {} revision(s) panicked: {}", revisions, p))),
        Ok(Err(e)) => return Err(UpErr::Broken("save-ok".into(), format!("incremental save on a file of {} revision(s) to a Vec failed: {}", revisions, e))),
        Ok(Ok(())) => {}
    }
    if !out.starts_with(prev_bytes) { return Err(UpErr::Broken("incremental-prefix".into(), format!("update of a file of {} revision(s): previous bytes are not an unchanged prefix", revisions))); }
    let mut start = prev_bytes.len();
    if out.get(start) == Some(&b'\n') && !prev_bytes.ends_with(b"\n") { start += 1; }
    verify_file(&out, start, &expect, want_stream, revisions + 1)
        .map_err(|e| UpErr::Broken("strict-reader-incremental".into(), format!("update {} of a file (rewrites the first object, adds a stream): {}", revisions, e)))?;
    Ok(out)
}

/// incremental save on top of `base` bytes: prefix preserved, appended revision strictly valid; the base file has
/// `revisions` revisions (a plain save followed by revisions - 1 updates made by `update_once`)
pub fn check_incremental(spec: &DocSpec, base_spec: &DocSpec, strip_newline: bool, revisions: usize) -> Result<bool, (String, String)> {
    let mut base_doc = build(base_spec);
    let mut base = vec![];
    base_doc.save_to(&mut base).map_err(|e| ("base-save".to_string(), e.to_string()))?;
    for r in 1..revisions {
        let loaded = match Document::load_mem(&base) { Ok(d) => d, Err(e) => return Err(("base-load".into(), format!("base of {} revision(s): {}", r, e))) };
        base = match update_once(&base, loaded, r, base_spec.xref_stream) {
            Ok(b) => b,
            Err(UpErr::Refused(e)) => return Err(("base-load".into(), format!("base of {} revision(s): {}", r, e))),
            Err(UpErr::Broken(o, d)) => return Err((o, format!("while the base was built: {}", d))),
        };
    }
    if !strip_newline { base.push(b'\n'); }
    let prev = match Document::load_mem(&base) { Ok(d) => d, Err(e) => return Err(("base-load".into(), format!("{}", e))) };
    let mut inc = IncrementalDocument::create_from(base.clone(), prev);
    for (id, o) in &spec.objects {
        inc.new_document.objects.insert(*id, o.clone());
        inc.new_document.max_id = inc.new_document.max_id.max(id.0);
    }
    let expect_doc = inc.new_document.clone();
    let want_stream = base_spec.xref_stream;
    let mut out = vec![];
    match guarded(std::panic::AssertUnwindSafe(|| inc.save_to(&mut out))) {
        Err(p) => return Err(("save-no-panic".into(), p)),
        Ok(Err(e)) => return Err(("save-ok".into(), e.to_string())),
        Ok(Ok(())) => {}
    }
    if !out.starts_with(&base) { return Err(("incremental-prefix".into(), "previous bytes are not an unchanged prefix".into())); }
    let mut start = base.len();
    if out.get(start) == Some(&b'\n') && !base.ends_with(b"\n") { start += 1; }
    // offsets in the appended revision are absolute file offsets
    verify_file(&out, start, &expect_doc, want_stream, revisions + 1).map_err(|e| ("strict-reader-incremental".to_string(), if revisions > 1 { format!("update of a base of {} revisions: {}", revisions, e) } else { e }))?;
    Ok(true)
}

/// the files an incremental save is made on top of have 1..=BASE_REVISIONS revisions; `Op::Updates(k)` reloads a document
/// from a file of k + 1 revisions, k in 1..=MAX_UPDATES
pub const BASE_REVISIONS: usize = 3;
pub const MAX_UPDATES: u8 = 3;
/// first object numbers of `Op::Renumber` (1 is `renumber_objects()`, the others `renumber_objects_with`)
pub const RENUMBER_STARTS: [u32; 3] = [1, 2, 300];

pub fn strict(thorough: bool) -> Report {
    let mut rep = Report::new(&format!("all documents of gen::docs (alphabet of 27 leaves + containers, 5 id layouts, both xref formats), each saved to a Vec and to a sink that takes at most 7 bytes per call; \
incremental: each over 2 bases per xref format x newline/no-newline x base files of 1..={} revisions (a plain save followed by updates that each rewrite the first object and add a stream; every such base file is itself read strictly); \
for EVERY file the strict reader also follows the chain of cross-reference sections: startxref, then Prev (and XRefStm) for as long as a section has one, must lead through exactly as many well-formed sections as the file has revisions \
(none but its own for a plain save, so no Prev), the first Prev being the startxref of the previous file, and Size must exceed every saved object number; \
document histories: the saved document is the one in memory after EVERY sequence of at most {} ({} for the gen::docs bases) library operations that the library accepts \
- at most {} ({}) operations when the sequence contains, at any position and any number of times, a structural operation (a reload through updates or a renumbering) - over the alphabet {{reload (save_to + load_mem), \
reload from the file after k = 1..={} incremental updates (a file of k + 1 cross-reference sections chained by Prev; every intermediate file is read strictly), \
renumber_objects() and renumber_objects_with(s) for s in {:?}, compress, decompress, Stream::set_content and Stream::set_plain_content on every stream, \
encrypt with V1 RC4-40 / V2 RC4-128 / V4 RC4 / V4 AESV2 / R5 AESV3 / V5(R6) AESV3 x user password \"user\" or empty (owner \"owner\"), decrypt with \"user\" / \"owner\" / empty}}, applied to {} base documents \
(both xref formats x plain stream bodies of 0, 1, 15, 16, 17, 32, 255, 256 bytes next to strings, a compressible 400-byte stream, a Metadata stream and a FlateDecode stream, one base without trailer ID; plus {}); \
after every history (every prefix included) the document is saved plainly and as the update of an incremental save and the strict reader must recover the objects held in memory at that moment",
        BASE_REVISIONS, hist_depth(thorough, true), hist_depth(thorough, false), limits(thorough, true).structural, limits(thorough, false).structural, MAX_UPDATES, &RENUMBER_STARTS[1..], history_bases(thorough).len(), if thorough { "every gen::docs document of the quick family" } else { "the gen::docs documents whose first object is a stream" }), true);
    let specs = docs(thorough);
    for s in &specs {
        match check_doc(s) {
            Ok(nt) => { rep.case(nt); if rep.evaluations % 97 == 1 { rep.sample(describe(s)); } }
            Err((ob, d)) => { rep.case(true); rep.fail(&ob, d.clone(), json!({"kind": "plain", "spec": spec_json(s)}), d); }
        }
    }
    let bases: Vec<DocSpec> = specs.iter().filter(|s| s.objects.len() == 2).take(2).cloned().chain(specs.iter().filter(|s| s.xref_stream && s.objects.len() == 2).take(2).cloned()).collect();
    let step = if thorough { 1 } else { 5 };
    for (k, s) in specs.iter().enumerate() {
        if k % step != 0 || s.objects.is_empty() { continue; }
        for b in &bases {
            for strip in [true, false] {
                for revisions in 1..=BASE_REVISIONS {
                    match check_incremental(s, b, strip, revisions) {
                        Ok(nt) => rep.case(nt),
                        Err((ob, d)) => { rep.case(true); rep.fail(&ob, d.clone(), json!({"kind": "incremental", "spec": spec_json(s), "base": spec_json(b), "strip_newline": strip, "base_revisions": revisions}), d); }
                    }
                }
            }
        }
    }
    histories(&mut rep, thorough, &bases);
    rep
}

pub fn spec_json(s: &DocSpec) -> Value {
    let mut d = build(s);
    let mut out = vec![];
    let _ = guarded(std::panic::AssertUnwindSafe(|| d.save_to(&mut out)));
    // a spec is recorded by its index-free description plus the reference serialisation of each object through Debug
    json!({"xref_stream": s.xref_stream, "version": s.version, "slack": s.max_id_slack, "extra_trailer": s.extra_trailer,
           "objects": s.objects.iter().map(|(id, o)| json!({"id": id.0, "gen": id.1, "obj": obj_json(o)})).collect::<Vec<_>>()})
}

pub fn obj_json(o: &Object) -> Value {
    use Object::*;
    match o {
        Null => json!({"t": "null"}),
        Boolean(b) => json!({"t": "bool", "v": b}),
        Integer(i) => json!({"t": "int", "v": i.to_string()}),
        Real(r) => json!({"t": "real", "bits": r.to_bits()}),
        Name(n) => json!({"t": "name", "v": hex(n)}),
        String(s, f) => json!({"t": "str", "v": hex(s), "hex": matches!(f, lopdf::StringFormat::Hexadecimal)}),
        Array(a) => json!({"t": "arr", "v": a.iter().map(obj_json).collect::<Vec<_>>()}),
        Dictionary(d) => json!({"t": "dict", "v": d.iter().map(|(k, v)| json!([hex(k), obj_json(v)])).collect::<Vec<_>>()}),
        Stream(s) => json!({"t": "stream", "dict": s.dict.iter().map(|(k, v)| json!([hex(k), obj_json(v)])).collect::<Vec<_>>(), "content": hex(&s.content)}),
        Reference(id) => json!({"t": "ref", "id": id.0, "gen": id.1}),
    }
}

pub fn obj_from_json(v: &Value) -> Object {
    let t = v["t"].as_str().unwrap_or("null");
    let dict_of = |a: &Value| { let mut d = lopdf::Dictionary::new(); for e in a.as_array().cloned().unwrap_or_default() { d.set(unhex(e[0].as_str().unwrap()), obj_from_json(&e[1])); } d };
    match t {
        "bool" => Object::Boolean(v["v"].as_bool().unwrap()),
        "int" => Object::Integer(v["v"].as_str().unwrap().parse().unwrap()),
        "real" => Object::Real(f32::from_bits(v["bits"].as_u64().unwrap() as u32)),
        "name" => Object::Name(unhex(v["v"].as_str().unwrap())),
        "str" => Object::String(unhex(v["v"].as_str().unwrap()), if v["hex"].as_bool().unwrap_or(false) { lopdf::StringFormat::Hexadecimal } else { lopdf::StringFormat::Literal }),
        "arr" => Object::Array(v["v"].as_array().unwrap().iter().map(obj_from_json).collect()),
        "dict" => Object::Dictionary(dict_of(&v["v"])),
        "stream" => { let d = dict_of(&v["dict"]); let mut s = lopdf::Stream::new(lopdf::Dictionary::new(), unhex(v["content"].as_str().unwrap())); s.dict = d; Object::Stream(s) }
        "ref" => Object::Reference((v["id"].as_u64().unwrap() as u32, v["gen"].as_u64().unwrap() as u16)),
        _ => Object::Null,
    }
}

pub fn spec_from_json(v: &Value) -> DocSpec {
    DocSpec {
        objects: v["objects"].as_array().cloned().unwrap_or_default().iter().map(|e| ((e["id"].as_u64().unwrap() as u32, e["gen"].as_u64().unwrap() as u16), obj_from_json(&e["obj"]))).collect(),
        xref_stream: v["xref_stream"].as_bool().unwrap_or(false),
        version: v["version"].as_str().unwrap_or("1.5").to_string(),
        extra_trailer: v["extra_trailer"].as_bool().unwrap_or(false),
        max_id_slack: v["slack"].as_u64().unwrap_or(0) as u32,
    }
}

pub fn replay(v: &Value) -> Result<(), String> {
    let s = spec_from_json(&v["spec"]);
    if v["kind"] == "history" {
        return replay_history(v);
    }
    if v["kind"] == "incremental" {
        let b = spec_from_json(&v["base"]);
        check_incremental(&s, &b, v["strip_newline"].as_bool().unwrap_or(true), v["base_revisions"].as_u64().unwrap_or(1) as usize).map(|_| ()).map_err(|e| format!("{}: {}", e.0, e.1))
    } else {
        check_doc(&s).map(|_| ()).map_err(|e| format!("{}: {}", e.0, e.1))
    }
}

// ---------------------------------------------------------------------------------------------------------------------
// Document histories.
//
// The property quantifies over every in-memory document, and what `save` writes for a stream is the dictionary and the
// body exactly as they are held in memory.  A document does not only come into memory by being put together object by
// object: it is loaded from a file, compressed, decompressed, encrypted, decrypted, has its stream bodies replaced.  So the
// family has a second axis, the HISTORY of the document: every sequence (up to a length bound) of library operations the
// library accepts, each applied to the result of the one before.  After every history - every prefix is a history - the
// document is saved (plainly, and as the update of an incremental save) and the strict reader must accept the file and
// give back the objects that were in memory when `save` was called.  The oracle is the same as for built documents:
// nothing about what an operation is supposed to do is assumed here (that is C05 / C09), only that whatever document it
// leaves behind is saved as a valid file holding that document.
// ---------------------------------------------------------------------------------------------------------------------

#[derive(Clone, Copy, Debug, PartialEq)]
pub enum Cipher { V1Rc4, V2Rc4, V4Rc4, V4AesV2, R5AesV3, V5AesV3 }

#[derive(Clone, Copy, Debug, PartialEq)]
pub enum Pw { User, Owner, Empty }

#[derive(Clone, Copy, Debug, PartialEq)]
pub enum Op { Reload, Updates(u8), Renumber(u32), Compress, Decompress, SetContent, SetPlain, Encrypt(Cipher, bool), Decrypt(Pw) }

impl Cipher {
    fn all() -> [Cipher; 6] { [Cipher::V1Rc4, Cipher::V2Rc4, Cipher::V4Rc4, Cipher::V4AesV2, Cipher::R5AesV3, Cipher::V5AesV3] }
    fn name(self) -> &'static str {
        match self { Cipher::V1Rc4 => "V1-RC4-40", Cipher::V2Rc4 => "V2-RC4-128", Cipher::V4Rc4 => "V4-RC4", Cipher::V4AesV2 => "V4-AESV2", Cipher::R5AesV3 => "R5-AESV3", Cipher::V5AesV3 => "V5-AESV3" }
    }
}

impl Pw {
    fn text(self) -> &'static str { match self { Pw::User => "user", Pw::Owner => "owner", Pw::Empty => "" } }
}

impl Op {
    pub fn alphabet() -> Vec<Op> {
        let mut v = vec![Op::Reload];
        for k in 1..=MAX_UPDATES { v.push(Op::Updates(k)); }
        for s in RENUMBER_STARTS { v.push(Op::Renumber(s)); }
        v.extend([Op::Compress, Op::Decompress, Op::SetContent, Op::SetPlain]);
        for c in Cipher::all() { for empty_user in [false, true] { v.push(Op::Encrypt(c, empty_user)); } }
        v.extend([Op::Decrypt(Pw::User), Op::Decrypt(Pw::Owner), Op::Decrypt(Pw::Empty)]);
        v
    }
    pub fn name(self) -> String {
        match self {
            Op::Reload => "reload".into(),
            Op::Updates(k) => format!("reload from the file after {} incremental update(s)", k),
            Op::Renumber(1) => "renumber_objects()".into(),
            Op::Renumber(s) => format!("renumber_objects_with({})", s),
            Op::Compress => "compress".into(),
            Op::Decompress => "decompress".into(),
            Op::SetContent => "set_content".into(),
            Op::SetPlain => "set_plain_content".into(),
            Op::Encrypt(c, empty_user) => format!("encrypt({}, user password {})", c.name(), if empty_user { "empty" } else { "\"user\"" }),
            Op::Decrypt(p) => format!("decrypt(\"{}\")", p.text()),
        }
    }
    /// the operations that change through which cross-reference sections the document came into memory, or how its objects are numbered
    pub fn is_structural(self) -> bool { matches!(self, Op::Updates(_) | Op::Renumber(_)) }
    pub fn from_name(n: &str) -> Option<Op> { Op::alphabet().into_iter().find(|o| o.name() == n) }
}

fn ops_text(h: &[Op]) -> String { h.iter().map(|o| o.name()).collect::<Vec<_>>().join(", ") }

#[allow(deprecated)]
fn new_state(c: Cipher, doc: &Document, user: &str) -> Result<EncryptionState, lopdf::Error> {
    const KEY: [u8; 32] = [0x5a, 1, 2, 3, 4, 5, 6, 7, 8, 9, 10, 11, 12, 13, 14, 15, 0xf0, 0xf1, 0xf2, 0xf3, 0xf4, 0xf5, 0xf6, 0xf7, 0xf8, 0xf9, 0xfa, 0xfb, 0xfc, 0xfd, 0xfe, 0xff];
    let cf = |f: Arc<dyn CryptFilter>| -> BTreeMap<Vec<u8>, Arc<dyn CryptFilter>> { BTreeMap::from([(b"StdCF".to_vec(), f)]) };
    let (owner_password, user_password, permissions) = ("owner", user, Permissions::all());
    let std = b"StdCF".to_vec();
    let v = match c {
        Cipher::V1Rc4 => EncryptionVersion::V1 { document: doc, owner_password, user_password, permissions },
        Cipher::V2Rc4 => EncryptionVersion::V2 { document: doc, owner_password, user_password, key_length: 128, permissions },
        Cipher::V4Rc4 => EncryptionVersion::V4 { document: doc, encrypt_metadata: true, crypt_filters: cf(Arc::new(Rc4CryptFilter)), stream_filter: std.clone(), string_filter: std, owner_password, user_password, permissions },
        Cipher::V4AesV2 => EncryptionVersion::V4 { document: doc, encrypt_metadata: true, crypt_filters: cf(Arc::new(Aes128CryptFilter)), stream_filter: std.clone(), string_filter: std, owner_password, user_password, permissions },
        Cipher::R5AesV3 => EncryptionVersion::R5 { encrypt_metadata: true, crypt_filters: cf(Arc::new(Aes256CryptFilter)), file_encryption_key: &KEY, stream_filter: std.clone(), string_filter: std, owner_password, user_password, permissions },
        Cipher::V5AesV3 => EncryptionVersion::V5 { encrypt_metadata: true, crypt_filters: cf(Arc::new(Aes256CryptFilter)), file_encryption_key: &KEY, stream_filter: std.clone(), string_filter: std, owner_password, user_password, permissions },
    };
    EncryptionState::try_from(v)
}

/// R5 and V5 states depend only on the given file key and the passwords, not on the document: made once per (cipher, user
/// password) and cloned (deriving one runs Algorithm 2.B three times)
fn make_state(c: Cipher, doc: &Document, user: &str) -> Result<EncryptionState, lopdf::Error> {
    static CACHE: std::sync::Mutex<Vec<(Cipher, bool, EncryptionState)>> = std::sync::Mutex::new(Vec::new());
    if !matches!(c, Cipher::R5AesV3 | Cipher::V5AesV3) { return new_state(c, doc, user); }
    let mut g = CACHE.lock().unwrap_or_else(|e| e.into_inner());
    if let Some(e) = g.iter().find(|e| e.0 == c && e.1 == user.is_empty()) { return Ok(e.2.clone()); }
    let st = new_state(c, doc, user)?;
    g.push((c, user.is_empty(), st.clone()));
    Ok(st)
}

/// catch a panic without touching the panic hook (cases run on rayon threads; `histories` silences the hook once)
fn quiet<T>(f: impl FnOnce() -> T) -> Result<T, String> {
    std::panic::catch_unwind(std::panic::AssertUnwindSafe(f)).map_err(|e| {
        if let Some(s) = e.downcast_ref::<String>() { s.clone() } else if let Some(s) = e.downcast_ref::<&str>() { s.to_string() } else { "panic".to_string() }
    })
}

pub enum Step { Done(Document), Refused, Panicked(String), Broken(String, String) }

/// one library operation on a copy of `doc`; `Refused`: the library returned an error (the sequence is not a history)
pub fn apply(op: Op, doc: &Document) -> Step {
    match op {
        Op::Reload => return reload_family(doc, 0).pop().unwrap(),
        Op::Updates(k) => return reload_family(doc, k as usize).pop().unwrap(),
        _ => {}
    }
    let mut d = doc.clone();
    let r = quiet(move || -> Result<Document, UpErr> {
        let each_stream = |d: &mut Document, f: &dyn Fn(&mut Stream)| -> Result<(), String> {
            let mut n = 0;
            for (_, o) in d.objects.iter_mut() {
                if is_bookkeeping_object(o) { continue; }
                if let Object::Stream(s) = o { f(s); n += 1; }
            }
            if n == 0 { Err("no stream to edit".into()) } else { Ok(()) }
        };
        match op {
            Op::Reload | Op::Updates(_) => unreachable!(),
            Op::Renumber(s) => { if s == 1 { d.renumber_objects(); } else { d.renumber_objects_with(s); } Ok(d) }
            Op::Compress => { d.compress(); Ok(d) }
            Op::Decompress => { d.decompress(); Ok(d) }
            Op::SetContent => { each_stream(&mut d, &|s| { let mut c = s.content.clone(); c.extend_from_slice(b" %+edit\n"); s.set_content(c); })?; Ok(d) }
            Op::SetPlain => { each_stream(&mut d, &|s| s.set_plain_content(b"q 1 0 0 1 0 0 cm Q".to_vec()))?; Ok(d) }
            Op::Encrypt(c, empty_user) => {
                let st = make_state(c, &d, if empty_user { "" } else { "user" }).map_err(|e| e.to_string())?;
                d.encrypt(&st).map_err(|e| e.to_string())?;
                Ok(d)
            }
            Op::Decrypt(p) => { d.decrypt(p.text()).map_err(|e| e.to_string())?; Ok(d) }
        }
    });
    match r { Ok(Ok(d)) => Step::Done(d), Ok(Err(UpErr::Refused(_))) => Step::Refused, Ok(Err(UpErr::Broken(o, d))) => Step::Broken(o, d), Err(p) => Step::Panicked(p) }
}

/// The results of `reload` and of `reload from the file after k incremental updates` for k = 1..=kmax, in this order.
/// The document is written to a file (save_to); loading that file is `reload`.  The file is then updated incrementally,
/// each update made from the file before it (`update_once`), and what loading the file after the k-th update gives is the
/// document of `Updates(k)`: a document that came into memory from k + 1 cross-reference sections chained by Prev.  The
/// files are shared between the k, which is the only reason for making them together.
pub fn reload_family(doc: &Document, kmax: usize) -> Vec<Step> {
    let mut steps: Vec<Step> = vec![];
    let want_stream = matches!(doc.reference_table.cross_reference_type, XrefType::CrossReferenceStream);
    let mut d = doc.clone();
    let mut bytes = vec![];
    // once a step is not `Done` there is no file to go on from: the longer chains are not histories either
    let stop = |steps: &mut Vec<Step>, first: Step| { steps.push(first); while steps.len() <= kmax { steps.push(Step::Refused); } };
    match quiet(|| d.save_to(&mut bytes)) {
        Ok(Ok(())) => {}
        Ok(Err(_)) => { stop(&mut steps, Step::Refused); return steps; }
        Err(p) => { stop(&mut steps, Step::Panicked(p)); return steps; }
    }
    for k in 0..=kmax {
        let loaded = match quiet(|| Document::load_mem(&bytes)) {
            Ok(Ok(l)) => l,
            Ok(Err(_)) => { stop(&mut steps, Step::Refused); return steps; }
            Err(p) => { stop(&mut steps, Step::Panicked(p)); return steps; }
        };
        if k < kmax {
            match quiet(|| update_once(&bytes, loaded.clone(), k + 1, want_stream)) {
                Ok(Ok(next)) => { bytes = next; steps.push(Step::Done(loaded)); }
                Ok(Err(e)) => { steps.push(Step::Done(loaded)); stop(&mut steps, match e { UpErr::Refused(_) => Step::Refused, UpErr::Broken(o, t) => Step::Broken(o, t) }); return steps; }
                Err(p) => { steps.push(Step::Done(loaded)); stop(&mut steps, Step::Panicked(p)); return steps; }
            }
        } else { steps.push(Step::Done(loaded)); }
    }
    steps
}

/// diagnosis only (not part of the verdict): streams whose dictionary and body already disagree in memory
fn length_note(doc: &Document) -> String {
    let mut first = String::new();
    let mut more = 0;
    for (id, o) in &doc.objects {
        if let Object::Stream(s) = o {
            if is_bookkeeping_object(o) { continue; }
            let l = s.dict.get(b"Length").and_then(|o| o.as_i64()).ok();
            if l != Some(s.content.len() as i64) {
                if first.is_empty() { first = format!("stream {} {} holds {} body bytes while its dictionary says Length {}", id.0, id.1, s.content.len(), l.map(|v| v.to_string()).unwrap_or("(absent or indirect)".into())); } else { more += 1; }
            }
        }
    }
    if first.is_empty() { String::new() } else { format!(" [in memory when save was called, {}{}]", first, if more > 0 { format!("; likewise {} more streams", more) } else { String::new() }) }
}

/// diagnosis only (not part of the verdict): the document's max_id, which the writer sizes the cross-reference section by,
/// is lower than an object number the document holds
fn numbering_note(doc: &Document) -> String {
    match doc.objects.keys().next_back() {
        Some((n, g)) if *n > doc.max_id => format!(" [in memory when save was called, the document holds object {} {} while its max_id is {}]", n, g, doc.max_id),
        _ => String::new(),
    }
}

pub struct HistBase { pub bytes: Vec<u8>, pub prev: Document, pub spec: DocSpec, pub revisions: usize }

/// the two saves of the document as it is now; Err((obligation, detail))
pub fn check_state(doc: &Document, inc: Option<&HistBase>) -> Result<(), (String, String)> {
    let expect = doc.clone();
    let want_stream = matches!(doc.reference_table.cross_reference_type, XrefType::CrossReferenceStream);
    match inc {
        None => {
            let mut d = doc.clone();
            let mut out = vec![];
            match quiet(|| d.save_to(&mut out)) {
                Err(p) => return Err(("save-no-panic-after-history".into(), format!("save panicked: {}", p))),
                Ok(Err(e)) => return Err(("save-ok-after-history".into(), format!("save to a Vec failed: {}", e))),
                Ok(Ok(())) => {}
            }
            verify_file(&out, 0, &expect, want_stream, 1).map_err(|e| ("strict-reader-after-history".to_string(), format!("{}{}{}", e, length_note(&expect), numbering_note(&expect))))
        }
        Some(b) => {
            let mut incd = IncrementalDocument::create_from(b.bytes.clone(), b.prev.clone());
            for (id, o) in &doc.objects {
                incd.new_document.objects.insert(*id, o.clone());
                incd.new_document.max_id = incd.new_document.max_id.max(id.0);
            }
            let expect_doc = incd.new_document.clone();
            let mut out = vec![];
            match quiet(|| incd.save_to(&mut out)) {
                Err(p) => return Err(("save-no-panic-after-history".into(), format!("incremental save panicked: {}", p))),
                Ok(Err(e)) => return Err(("save-ok-after-history".into(), format!("incremental save to a Vec failed: {}", e))),
                Ok(Ok(())) => {}
            }
            if !out.starts_with(&b.bytes) { return Err(("incremental-prefix".into(), "previous bytes are not an unchanged prefix".into())); }
            let mut start = b.bytes.len();
            if out.get(start) == Some(&b'\n') && !b.bytes.ends_with(b"\n") { start += 1; }
            verify_file(&out, start, &expect_doc, b.spec.xref_stream, b.revisions + 1).map_err(|e| ("strict-reader-incremental-after-history".to_string(), format!("{}{}{}", e, length_note(&expect_doc), numbering_note(&expect_doc))))
        }
    }
}

fn pat(n: usize, seed: u8) -> Vec<u8> { (0..n).map(|i| (i as u8).wrapping_mul(37).wrapping_add(seed)).collect() }

/// a base document for histories: strings (direct and nested), a plain stream of `n` bytes, a compressible stream, a
/// Metadata stream and a stream that is already FlateDecode-compressed; `with_id`: the trailer has an ID (gen::build's extra_trailer)
pub fn history_doc(n: usize, xref_stream: bool, with_id: bool) -> DocSpec {
    use flate2::write::ZlibEncoder;
    use std::io::Write;
    let mut enc = ZlibEncoder::new(Vec::new(), flate2::Compression::default());
    enc.write_all(&b"BT /F1 12 Tf (flate) Tj ET\n".repeat(8)).unwrap();
    let deflated = enc.finish().unwrap();
    let objects = vec![
        ((1, 0), Object::Dictionary(dict(vec![(b"Type", name(b"Catalog")), (b"Title", lit(b"history (of) a document\\")), (b"Metadata", Object::Reference((5, 0)))]))),
        ((2, 0), Object::Stream(Stream::new(dict(vec![(b"Note", lit(b"plain body"))]), pat(n, 11)))),
        ((3, 0), Object::Dictionary(dict(vec![(b"Producer", lit(b"p\\(")), (b"Nested", Object::Array(vec![hexs(b"\x00\xff"), Object::Dictionary(dict(vec![(b"K", lit(b""))]))]))]))),
        ((4, 1), Object::Stream(Stream::new(Dictionary::new(), b"0 0 m 10 10 l S\n".repeat(25)))),
        ((5, 0), Object::Stream(Stream::new(dict(vec![(b"Type", name(b"Metadata")), (b"Subtype", name(b"XML"))]), b"<x:xmpmeta xmlns:x=\"adobe:ns:meta/\"></x:xmpmeta>".to_vec()))),
        ((7, 0), Object::Stream(Stream::new(dict(vec![(b"Filter", name(b"FlateDecode"))]), deflated))),
    ];
    DocSpec { objects, xref_stream, version: "1.7".into(), extra_trailer: with_id, max_id_slack: (n % 2) as u32 }
}

pub const HISTORY_BODY_LENGTHS: [usize; 8] = [0, 1, 15, 16, 17, 32, 255, 256];

/// (base document, is it one of the purpose-built history bases)
pub fn history_bases(thorough: bool) -> Vec<(DocSpec, bool)> {
    let mut v = vec![];
    for xs in [false, true] {
        for n in HISTORY_BODY_LENGTHS { v.push((history_doc(n, xs, true), true)); }
        v.push((history_doc(33, xs, false), true));
    }
    for s in docs(false) {
        let first_is_stream = matches!(s.objects.first(), Some((_, Object::Stream(_))));
        if thorough || first_is_stream { v.push((s, false)); }
    }
    v
}

pub fn hist_depth(thorough: bool, purpose_built: bool) -> usize { if thorough && purpose_built { 4 } else { 3 } }

struct HFail { ops: Vec<Op>, base: usize, incremental: bool, obligation: String, detail: String }

#[derive(Default)]
struct HOut { by_len: [u64; 8], refused: u64, fails: Vec<HFail> }

/// length bounds of the histories of one base: `structural` for the histories that contain an operation of the structural
/// group (`Op::is_structural`), `plain` for those that do not
#[derive(Clone, Copy)]
pub struct Limits { pub plain: usize, pub structural: usize }

pub fn limits(thorough: bool, purpose_built: bool) -> Limits { let d = hist_depth(thorough, purpose_built); Limits { plain: d, structural: d - 1 } }

/// may `op` be appended to `hist` within the bounds
fn within(op: Op, hist: &[Op], lim: Limits) -> bool {
    let structural = op.is_structural() || hist.iter().any(|o| o.is_structural());
    hist.len() + 1 <= if structural { lim.structural } else { lim.plain }
}

fn explore(doc: &Document, hist: &mut Vec<Op>, lim: Limits, base: usize, incs: &[HistBase; 2], out: &mut HOut) {
    out.by_len[hist.len()] += 1;
    let inc = &incs[if matches!(doc.reference_table.cross_reference_type, XrefType::CrossReferenceStream) { 1 } else { 0 }];
    let mut failed = false;
    for (incremental, r) in [(false, check_state(doc, None)), (true, check_state(doc, Some(inc)))] {
        if let Err((obligation, detail)) = r { failed = true; out.fails.push(HFail { ops: hist.clone(), base, incremental, obligation, detail }); }
    }
    // a longer history through a state that already fails adds nothing (and is not minimal)
    if failed { return; }
    let ops: Vec<Op> = Op::alphabet().into_iter().filter(|op| within(*op, hist, lim)).collect();
    // reload and the reloads through k updates share their files
    let kmax = ops.iter().filter_map(|op| match op { Op::Reload => Some(0), Op::Updates(k) => Some(*k as usize), _ => None }).max();
    let mut family: Vec<Option<Step>> = kmax.map(|k| reload_family(doc, k).into_iter().map(Some).collect()).unwrap_or_default();
    for op in ops {
        let step = match op {
            Op::Reload => family[0].take().unwrap(),
            Op::Updates(k) => family[k as usize].take().unwrap(),
            _ => apply(op, doc),
        };
        match step {
            Step::Done(nd) => { hist.push(op); explore(&nd, hist, lim, base, incs, out); hist.pop(); }
            Step::Refused => out.refused += 1,
            Step::Panicked(p) => {
                let mut h = hist.clone();
                h.push(op);
                out.fails.push(HFail { ops: h, base, incremental: false, obligation: "history-no-panic".into(), detail: format!("the last operation of the history panicked: {}", p) });
            }
            Step::Broken(obligation, detail) => {
                let mut h = hist.clone();
                h.push(op);
                out.fails.push(HFail { ops: h, base, incremental: false, obligation, detail: format!("a file written inside the last operation of the history: {}", detail) });
            }
        }
    }
}

fn hist_base_of(spec: &DocSpec) -> Result<HistBase, String> {
    let mut bytes = vec![];
    build(spec).save_to(&mut bytes).map_err(|e| e.to_string())?;
    bytes.push(b'\n');
    let prev = Document::load_mem(&bytes).map_err(|e| e.to_string())?;
    Ok(HistBase { bytes, prev, spec: spec.clone(), revisions: 1 })
}

fn history_input(spec: &DocSpec, ops: &[Op], incremental: bool, inc_base: &DocSpec) -> Value {
    let mut v = json!({"kind": "history", "spec": spec_json(spec), "ops": ops.iter().map(|o| o.name()).collect::<Vec<_>>(), "save": if incremental { "incremental" } else { "plain" }});
    if incremental { v["base"] = spec_json(inc_base); }
    v
}

fn histories(rep: &mut Report, thorough: bool, bases: &[DocSpec]) {
    let table = bases.iter().find(|b| !b.xref_stream);
    let stream = bases.iter().find(|b| b.xref_stream);
    let incs = match (table.map(hist_base_of), stream.map(hist_base_of)) {
        (Some(Ok(a)), Some(Ok(b))) => [a, b],
        _ => { rep.case(true); rep.fail("base-save", "the bases of the incremental saves could not be saved and loaded".into(), json!({"kind": "history-bases"}), "no bases".into()); return; }
    };
    let hb = history_bases(thorough);
    let prev_hook = std::panic::take_hook();
    std::panic::set_hook(Box::new(|_| {}));
    // one task per (base, first operation) plus one per base for the empty history, so that the deep bases spread over all cores
    let mut tasks: Vec<(usize, Option<Op>)> = vec![];
    for i in 0..hb.len() { tasks.push((i, None)); for op in Op::alphabet() { tasks.push((i, Some(op))); } }
    let outs: Vec<HOut> = tasks.par_iter().map(|(i, first)| {
        let (spec, purpose_built) = &hb[*i];
        let lim = limits(thorough, *purpose_built);
        let mut out = HOut::default();
        let root = build(spec);
        match first {
            None => explore(&root, &mut vec![], Limits { plain: 0, structural: 0 }, *i, &incs, &mut out),
            Some(op) => match apply(*op, &root) {
                Step::Done(nd) => explore(&nd, &mut vec![*op], lim, *i, &incs, &mut out),
                Step::Refused => out.refused += 1,
                Step::Panicked(p) => out.fails.push(HFail { ops: vec![*op], base: *i, incremental: false, obligation: "history-no-panic".into(), detail: format!("the last operation of the history panicked: {}", p) }),
                Step::Broken(obligation, detail) => out.fails.push(HFail { ops: vec![*op], base: *i, incremental: false, obligation, detail: format!("a file written inside the last operation of the history: {}", detail) }),
            },
        }
        out
    }).collect();
    std::panic::set_hook(prev_hook);
    let mut by_len = [0u64; 8];
    let mut refused = 0;
    let mut fails: Vec<HFail> = vec![];
    for o in outs {
        for k in 0..8 { by_len[k] += o.by_len[k]; }
        refused += o.refused;
        fails.extend(o.fails);
    }
    // two saves per history; the empty history of a base repeats a built document and is not counted as a new non-trivial case
    for (k, n) in by_len.iter().enumerate() { for _ in 0..2 * n { rep.case(k > 0); } }
    rep.samples.truncate(3);
    rep.sample(format!("histories saved and read strictly, by number of operations 0..: {:?}; operation attempts the library refused (not histories): {}", &by_len[..5], refused));
    // shortest histories first, so that the failures kept are the minimal ones
    fails.sort_by_key(|f| (f.ops.len(), f.incremental, f.base));
    for f in fails.iter().take(2000) {
        let spec = &hb[f.base].0;
        let inc_spec = &incs[if spec.xref_stream { 1 } else { 0 }].spec;
        // the "[..] " prefix is not part of the failure signature (Report::fail), so one cause reached by many histories is kept three times, shortest histories first
        let detail = format!("[history: {}] {} -- {} save of the document {}", ops_text(&f.ops), f.detail, if f.incremental { "incremental" } else { "plain" }, describe_short(spec));
        rep.fail(&f.obligation, detail.clone(), history_input(spec, &f.ops, f.incremental, inc_spec), detail);
    }
}

fn describe_short(s: &DocSpec) -> String { let mut t = describe(s); if t.len() > 240 { let mut k = 240; while !t.is_char_boundary(k) { k -= 1; } t.truncate(k); t.push_str("..."); } t }

fn replay_history(v: &Value) -> Result<(), String> {
    let spec = spec_from_json(&v["spec"]);
    let mut doc = build(&spec);
    let mut done = vec![];
    for n in v["ops"].as_array().cloned().unwrap_or_default() {
        let op = Op::from_name(n.as_str().unwrap_or("")).ok_or(format!("unknown operation {:?}", n))?;
        done.push(op);
        match apply(op, &doc) {
            Step::Done(d) => doc = d,
            Step::Refused => return Ok(()),   // the library no longer accepts this sequence: the recorded failure is gone
            Step::Panicked(p) => return Err(format!("history-no-panic: [{}]: {}", ops_text(&done), p)),
            Step::Broken(o, d) => return Err(format!("{}: a file written inside the last operation of the history [{}]: {}", o, ops_text(&done), d)),
        }
    }
    let r = if v["save"] == "incremental" {
        let b = hist_base_of(&spec_from_json(&v["base"])).map_err(|e| format!("base-save: {}", e))?;
        check_state(&doc, Some(&b))
    } else { check_state(&doc, None) };
    r.map_err(|e| format!("{}: {} -- after the history [{}]", e.0, e.1, ops_text(&done)))
}
